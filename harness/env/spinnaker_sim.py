"""A simulated SpiNNaker machine: the environment the machine-control code is run against.

It answers SCP datagrams the way SC&MP does, as far as rig's MachineController uses it.  It is an
*environment*, not an oracle: every command it executes is logged (SimMachine.log) with its effect so that the
trace specifications can judge both rig (did it send the right commands / return the right values?) and the
simulator itself (was the logged effect what spec/Machine.tla says SC&MP does?).

Layout knowledge comes from the SpiNNaker documentation quoted in rig (consts.py, regions.py, sark.struct);
the struct file is parsed here independently of rig.machine_control.struct_file.
"""
import re
import struct

SV_BASE_FALLBACK = 0xf5007f00
SDRAM_BASE = 0x60000000
SYSRAM_BASE = 0xf5000000
RTR_P2P = 0xE1000000 + 0x10000
RTR_DIAG = 0xE1000300
RC_OK, RC_LEN, RC_CMD, RC_ARG, RC_ROUTE, RC_CPU, RC_P2P_NOREPLY = 0x80, 0x81, 0x83, 0x84, 0x87, 0x88, 0x8b

CMD_VER, CMD_READ, CMD_WRITE, CMD_FILL, CMD_LINK_READ, CMD_LINK_WRITE = 0, 2, 3, 5, 17, 18
CMD_NNP, CMD_SIG, CMD_FFD, CMD_LED, CMD_IPTAG, CMD_ALLOC, CMD_RTR, CMD_INFO = 20, 22, 23, 25, 26, 28, 29, 31
NN_FFS, NN_FFCS, NN_FFE = 6, 7, 15
STATE_IDLE, STATE_WAIT, STATE_RUN = 15, 5, 7
STATE_SYNC0, STATE_SYNC1, STATE_PAUSE, STATE_EXIT = 8, 9, 10, 11
LINK_VEC = [(1, 0), (1, 1), (0, 1), (-1, 0), (-1, -1), (0, -1)]


def parse_struct_file(text):
    """{struct name: (base, size, {field: (offset, pack char, count)})}"""
    out, cur = {}, None
    for line in text.splitlines():
        line = line.split("#")[0].strip()
        if not line:
            continue
        m = re.match(r"(\w+)\s*=\s*(\S+)$", line)
        if m:
            k, v = m.groups()
            if k == "name":
                cur = dict(base=0, size=0, fields={})
                out[v] = cur
            elif k in ("base", "size"):
                cur[k] = int(v, 0)
            continue
        parts = line.split()
        name, pack, off = parts[0], parts[1], int(parts[2], 0)
        count = 1
        m = re.match(r"(\w+)\[(\d+)\]", name)
        if m:
            name, count = m.group(1), int(m.group(2))
        cur["fields"][name] = (off, pack, count)
    return out


class SimChip(object):
    def __init__(self, x, y, ncores=18, links=None):
        self.x, self.y = x, y
        self.ncores = ncores
        self.links = set(range(6)) if links is None else set(links)
        self.mem = {}                  # address -> byte; everything else reads as background(addr)
        self.core_state = [STATE_IDLE] * 18
        self.core_app = [0] * 18
        self.core_image = [None] * 18  # bytes of the loaded binary
        self.core_state[0] = STATE_RUN  # monitor
        self.rtr = [None] * 1024       # (key, mask, route, app_id) or None
        self.rtr_owner = {}            # index -> app id of the allocation holding it
        self.sdram_next = SDRAM_BASE + 0x1000
        self.sdram_allocs = {}         # ptr -> (size, tag, app_id)
        self.sdram_limit = SDRAM_BASE + 0x2000000
        self.sram_free = 0x4000
        self.eth_up = False
        self.ip = (0, 0, 0, 0)
        self.local_eth = (0, 0)
        self.iptags = {}
        # flood fill receiver
        self.ff = None

    @staticmethod
    def background(addr):
        return (addr * 7 + (addr >> 8) * 13 + 5) & 0xff

    @staticmethod
    def core_local(addr):
        """instruction and data memory tightly coupled to each core: every core has its own at the same addresses"""
        return 0 <= addr < 0x8000 or 0x00400000 <= addr < 0x00410000

    def read(self, addr, n, p=0):
        if p and self.core_local(addr):
            return bytes(self.mem.get((p, a), self.background(a + 31 * p)) for a in range(addr, addr + n))
        return bytes(self.mem.get(a, self.background(a)) for a in range(addr, addr + n))

    def write(self, addr, data, p=0):
        local = p and self.core_local(addr)
        for i, b in enumerate(bytearray(data)):
            self.mem[(p, addr + i) if local else addr + i] = b

    def largest_free_rtr_block(self):
        best = cur = 0
        for i in range(1, 1024):
            cur = cur + 1 if (self.rtr[i] is None and i not in self.rtr_owner) else 0
            best = max(best, cur)
        return best


class SimMachine(object):
    def __init__(self, width, height, struct_text, buffer_size=256, dead_chips=(), dead_links=(), ncores=None,
                 version=(2, 0, 0), legacy_version=False, name="SC&MP/SpiNNaker", root=(0, 0)):
        self.width, self.height = width, height
        self.buffer_size = buffer_size
        self.structs = parse_struct_file(struct_text)
        self.sv = self.structs["sv"]
        self.vcpu = self.structs["vcpu"]
        self.version, self.legacy_version, self.name = version, legacy_version, name
        self.root = root
        self.chips = {}
        self.unresponsive = set()      # chips present in the P2P table that never answer
        dl = set(dead_links)
        for x in range(width):
            for y in range(height):
                if (x, y) in dead_chips:
                    continue
                links = set()
                for l, (dx, dy) in enumerate(LINK_VEC):
                    n = ((x + dx) % width, (y + dy) % height)
                    if (x, y, l) not in dl and n not in dead_chips:
                        links.add(l)
                c = SimChip(x, y, (ncores or {}).get((x, y), 18), links)
                self.chips[(x, y)] = c
        self.log = []                  # executed commands
        self.miss = lambda chip, pid: False     # does this chip miss this flood fill?
        self.fill_pid = None
        self._init_memory()

    # ------------------------------------------------------------------ memory layout
    def sv_addr(self, field):
        return self.sv["base"] + self.sv["fields"][field][0]

    def vcpu_addr(self, chip, p, field):
        return chip.vcpu_base + self.vcpu["size"] * p + self.vcpu["fields"][field][0]

    def _init_memory(self):
        for (x, y), c in self.chips.items():
            # (the per-core blocks do not sit at the same address on every chip)
            c.vcpu_base = SYSRAM_BASE + 0x4000 + 0x900 * ((x * 7 + y * 3) % 5)
            c.sdram_sys = SDRAM_BASE + 0x7000000
            c.rtr_copy = SDRAM_BASE + 0x7100000
            c.alloc_tag = SDRAM_BASE + 0x7200000
            c.write(self.sv_addr("p2p_addr"), struct.pack("<H", (x << 8) | y))
            c.write(self.sv_addr("p2p_dims"), struct.pack("<H", (self.width << 8) | self.height))
            c.write(self.sv_addr("num_cpus"), struct.pack("<B", c.ncores))
            c.write(self.sv_addr("sdram_sys"), struct.pack("<I", c.sdram_sys))
            c.write(self.sv_addr("vcpu_base"), struct.pack("<I", c.vcpu_base))
            c.write(self.sv_addr("rtr_copy"), struct.pack("<I", c.rtr_copy))
            c.write(self.sv_addr("alloc_tag"), struct.pack("<I", c.alloc_tag))
            c.write(self.sv_addr("iobuf_size"), struct.pack("<I", 64))
            c.write(c.vcpu_base, b"\0" * (self.vcpu["size"] * 18))
            for p in range(18):
                self._sync_core(c, p)
            self._sync_router(c)
            self._sync_p2p(c)

    def _sync_core(self, c, p):
        c.write(self.vcpu_addr(c, p, "cpu_state"), bytes([c.core_state[p]]))
        c.write(self.vcpu_addr(c, p, "app_id"), bytes([c.core_app[p]]))

    def _sync_router(self, c, idxs=None):
        for i in (range(1024) if idxs is None else idxs):
            e = c.rtr[i]
            if e is None:
                rec = struct.pack("<2H3I", i, 0, 0xff000000, 0xffffffff, 0)
            else:
                key, mask, route, app = e
                rec = struct.pack("<2H3I", i, app & 0xff, route, key, mask)      # "free" half-word: core << 8 | app id
            c.write(c.rtr_copy + 16 * i, rec)

    def _sync_p2p(self, c):
        """P2P table: 3 bits per destination, 8 destinations per word, 256 rows per column"""
        for col in range(self.width):
            for row0 in range(0, self.height, 8):
                word = 0
                for k in range(8):
                    row = row0 + k
                    if row >= self.height:
                        ent = 6
                    elif (col, row) in self.chips or (col, row) in self.unresponsive:
                        ent = 7 if (col, row) == (c.x, c.y) else self.p2p_dir(c, col, row)
                    else:
                        ent = 6            # none
                    word |= ent << (3 * k)
                c.write(RTR_P2P + ((256 * col + row0) // 8) * 4, struct.pack("<I", word))

    def p2p_dir(self, c, col, row):
        return (col * 3 + row) % 6          # any link direction: rig only distinguishes 'none'

    def set_unresponsive(self, chips):
        self.unresponsive = set(chips)
        for c in chips:
            self.chips.pop(c, None)
        for c in self.chips.values():
            self._sync_p2p(c)

    # ------------------------------------------------------------------ SCP
    def deliver(self, datagram):
        """one SCP request datagram -> list of reply datagrams (empty if nothing answers)"""
        if len(datagram) < 14:
            return []
        flags, tag, dpc, spc, dy, dx, sy, sx = struct.unpack_from("<8B", datagram, 2)
        cmd, seq = struct.unpack_from("<2H", datagram, 10)
        body = datagram[14:]
        a = list(struct.unpack_from("<3I", body.ljust(12, b"\0")))
        data = body[12:]
        p = dpc & 0x1f
        tx, ty = (self.root if (dx, dy) == (255, 255) else (dx, dy))
        rec = dict(cmd=int(cmd), x=tx, y=ty, p=p, arg1=a[0], arg2=a[1], arg3=a[2], data=bytes(data),
                   raw_dest=(dx, dy), port=dpc >> 5, flags=flags)
        self.log.append(rec)
        chip = self.chips.get((tx, ty))

        def reply(rc, args=(), payload=b""):
            rec["rc"] = rc
            rec["reply_args"] = list(args)
            rec["reply_data"] = bytes(payload)
            hdr = struct.pack("<2x8B", 0x07, tag, spc, dpc, sy, sx, dy, dx)
            return [hdr + struct.pack("<2H", rc, seq) + b"".join(struct.pack("<I", v & 0xffffffff) for v in args)
                    + bytes(payload)]
        if chip is None:
            if (tx, ty) in self.unresponsive:
                rec["rc"] = None
                return []
            return reply(RC_ROUTE)
        if len(data) > self.buffer_size:
            return reply(RC_LEN)
        h = getattr(self, "_cmd_%d" % cmd, None)
        if h is None:
            return reply(RC_CMD)
        out = h(chip, p, a, data, rec)
        if isinstance(out, int):
            return reply(out)
        return reply(RC_OK, *out)

    # version
    def _cmd_0(self, chip, p, a, data, rec):
        arg1 = (((chip.x << 8) | chip.y) << 16) | (p << 8) | p
        if self.legacy_version:
            arg2 = ((self.version[0] * 100 + self.version[1]) << 16) | self.buffer_size
            payload = self.name.encode() + b"\0"
        else:
            arg2 = (0xFFFF << 16) | self.buffer_size
            payload = self.name.encode() + b"\0" + ("%d.%d.%d" % self.version).encode() + b"\0"
        return (arg1, arg2, 1400000000), payload

    @staticmethod
    def _aligned(addr, n, typ):
        return (typ == 0) or (typ == 1 and addr % 2 == 0 and n % 2 == 0) or (typ == 2 and addr % 4 == 0 and n % 4 == 0)

    def _cmd_2(self, chip, p, a, data, rec):          # read
        addr, n, typ = a
        if n > self.buffer_size:
            return RC_LEN
        if typ not in (0, 1, 2) or not self._aligned(addr, n, typ):
            return RC_ARG
        return (), chip.read(addr, n, p)

    def _cmd_3(self, chip, p, a, data, rec):          # write
        addr, n, typ = a
        if n > self.buffer_size or n != len(data):
            return RC_LEN
        if typ not in (0, 1, 2) or not self._aligned(addr, n, typ):
            return RC_ARG
        chip.write(addr, data, p)
        self._after_write(chip, addr, n)
        return (), b""

    def _after_write(self, chip, addr, n):
        pass

    def _cmd_5(self, chip, p, a, data, rec):          # fill: arg3 bytes from arg1 with the word arg2
        addr, word, size = a
        if addr % 4 or size % 4:
            return RC_ARG
        chip.write(addr, struct.pack("<I", word) * (size // 4), p)
        return (), b""

    def _neighbour(self, chip, link):
        if link not in chip.links:
            return None
        dx, dy = LINK_VEC[link]
        return self.chips.get(((chip.x + dx) % self.width, (chip.y + dy) % self.height))

    def _cmd_17(self, chip, p, a, data, rec):         # link read
        addr, n, link = a
        if n > self.buffer_size or addr % 4 or n % 4 or link > 5:
            return RC_ARG
        nb = self._neighbour(chip, link)
        if nb is None:
            return RC_P2P_NOREPLY
        rec["via"] = (nb.x, nb.y)
        return (), nb.read(addr, n)

    def _cmd_18(self, chip, p, a, data, rec):         # link write
        addr, n, link = a
        if n > self.buffer_size or n != len(data) or addr % 4 or n % 4 or link > 5:
            return RC_ARG
        nb = self._neighbour(chip, link)
        if nb is None:
            return RC_P2P_NOREPLY
        rec["via"] = (nb.x, nb.y)
        nb.write(addr, data)
        return (), b""

    def _cmd_25(self, chip, p, a, data, rec):         # led
        return (), b""

    def _cmd_26(self, chip, p, a, data, rec):         # iptag
        op, tagno = (a[0] >> 16) & 0xff, a[0] & 0xff
        if op == 1:
            chip.iptags[tagno] = (a[1], a[2])
            return (), b""
        if op == 3:
            chip.iptags.pop(tagno, None)
            return (), b""
        # iptag_t: ip[4], mac[6], tx_port, timeout, flags (bit 15 = in use), count, rx_port, spin_addr, spin_port
        port, addr = chip.iptags.get(tagno, (0, 0))
        flags = 0x8000 if tagno in chip.iptags else 0
        payload = struct.pack("<4s6s3HI2HB3x", struct.pack("<I", addr), b"\0" * 6, port & 0xffff, 0, flags, 0, 0, 0, 0)
        return (), payload

    def _cmd_28(self, chip, p, a, data, rec):         # alloc / free
        op, app = a[0] & 0xff, (a[0] >> 8) & 0xff
        if op == 0:                                   # alloc sdram
            size, tag = a[1], a[2]
            if tag and any(t == tag and ap == app for (_, t, ap) in chip.sdram_allocs.values()):
                return (0,), b""
            size_al = (size + 3) & ~3
            if size == 0 or chip.sdram_next + size_al > chip.sdram_limit:
                return (0,), b""
            ptr = chip.sdram_next
            chip.sdram_next += size_al + 8
            chip.sdram_allocs[ptr] = (size, tag, app)
            if tag:
                chip.write(chip.alloc_tag + ((app << 8) + tag) * 4, struct.pack("<I", ptr))
            return (ptr,), b""
        if op == 1:                                   # free by pointer
            ent = chip.sdram_allocs.pop(a[1], None)
            if ent and ent[1]:
                chip.write(chip.alloc_tag + ((ent[2] << 8) + ent[1]) * 4, struct.pack("<I", 0))
            return (1 if ent else 0,), b""
        if op == 2:                                   # free by tag/app
            n = 0
            for ptr, (size, tag, ap) in list(chip.sdram_allocs.items()):
                if ap == app:
                    del chip.sdram_allocs[ptr]
                    n += 1
            return (n,), b""
        if op == 3:                                   # alloc router entries: first fit, index 0 never given
            count = a[1]
            base = 0
            if 0 < count <= 1023:
                run = 0
                for i in range(1, 1024):
                    run = run + 1 if (chip.rtr[i] is None and i not in chip.rtr_owner) else 0
                    if run == count:
                        base = i - count + 1
                        break
            if base:
                for i in range(base, base + count):
                    chip.rtr_owner[i] = app
            rec["rtr_base"] = base
            return (base,), b""
        if op == 5:                                   # free router entries by app
            idxs = [i for i, e in enumerate(chip.rtr) if e is not None and e[3] == app]
            for i in idxs:
                chip.rtr[i] = None
            for i, owner in list(chip.rtr_owner.items()):
                if owner == app:
                    del chip.rtr_owner[i]
            self._sync_router(chip, idxs)
            return (len(idxs),), b""
        return RC_ARG

    def _cmd_29(self, chip, p, a, data, rec):         # router
        op, app, count = a[0] & 0xff, (a[0] >> 8) & 0xff, a[0] >> 16
        if op != 2:
            return (), b""
        buf, base = a[1], a[2]
        installed = []
        for i in range(count):
            idx, _pad, route, key, mask = struct.unpack("<2H3I", chip.read(buf + 16 * i, 16))
            pos = base + idx
            if not (0 < pos < 1024):
                return RC_ARG
            chip.rtr[pos] = (key, mask, route, app)
            installed.append(pos)
            rec.setdefault("installed_entries", []).append((pos, key, mask, route))
        self._sync_router(chip, installed)
        rec["installed"] = installed
        return (), b""

    def _cmd_31(self, chip, p, a, data, rec):         # chip info
        arg1 = chip.ncores & 0x1f
        for l in chip.links:
            arg1 |= 1 << (8 + l)
        arg1 |= (chip.largest_free_rtr_block() & 0x7ff) << 14
        if chip.eth_up:
            arg1 |= 1 << 25
        states = [chip.core_state[i] if i < chip.ncores else 0 for i in range(18)]
        ipw = chip.ip[0] | (chip.ip[1] << 8) | (chip.ip[2] << 16) | (chip.ip[3] << 24)
        payload = struct.pack("<18BHI", *(states + [(chip.local_eth[0] << 8) | chip.local_eth[1], ipw]))
        free_sdram = chip.sdram_limit - chip.sdram_next
        return (arg1, free_sdram, chip.sram_free), payload

    # signals and counting (sent to 255,255; apply machine-wide)
    def _cmd_22(self, chip, p, a, data, rec):
        typ = a[0]
        if typ == 1 and (a[1] >> 22) & 1 or (typ == 1):         # peer-to-peer diagnostic: count / and / or
            op = (a[1] >> 20) & 3
            state = (a[1] >> 16) & 0xf
            app = a[1] & 0xff
            n = sum(1 for c in self.chips.values() for i in range(1, c.ncores)
                    if c.core_state[i] == state and c.core_app[i] == app)
            rec["count"] = n
            return (n,), b""
        sig = (a[1] >> 16) & 0xff
        app = a[1] & 0xff
        rec["signal"] = sig
        for c in self.chips.values():
            for i in range(1, c.ncores):
                if c.core_app[i] != app or c.core_state[i] == STATE_IDLE:
                    continue
                cur = c.core_state[i]
                if sig == 3 and cur == STATE_WAIT:                       # start
                    c.core_state[i] = STATE_RUN
                elif sig == 2:                                            # stop
                    c.core_state[i], c.core_app[i], c.core_image[i] = STATE_IDLE, 0, None
                elif (sig, cur) in ((4, STATE_SYNC0), (5, STATE_SYNC1), (7, STATE_PAUSE)):   # barriers, continue
                    c.core_state[i] = STATE_RUN
                elif sig == 6 and cur == STATE_RUN:                       # pause
                    c.core_state[i] = STATE_PAUSE
                elif sig == 8:                                            # exit
                    c.core_state[i] = STATE_EXIT
                self._sync_core(c, i)
            if sig == 2:
                for ptr, (size, tag, ap) in list(c.sdram_allocs.items()):
                    if ap == app:
                        del c.sdram_allocs[ptr]
                idxs = [i for i, e in enumerate(c.rtr) if e is not None and e[3] == app]
                for i in idxs:
                    c.rtr[i] = None
                for i, owner in list(c.rtr_owner.items()):
                    if owner == app:
                        del c.rtr_owner[i]
                self._sync_router(c, idxs)
        return (), b""

    # flood fill
    @staticmethod
    def region_selects(region, x, y):
        level = (region >> 16) & 3
        bx, by = (region >> 24) & 0xff, (region >> 16) & 0xfc
        sub = 4 ** (3 - level)
        dx, dy = x - bx, y - by
        if not (0 <= dx < 4 * sub and 0 <= dy < 4 * sub):
            return False
        return bool((region >> ((dx // sub) + 4 * (dy // sub))) & 1)

    def _cmd_20(self, chip, p, a, data, rec):         # nearest neighbour packet (flood fill control)
        op = a[0] >> 24
        if op == NN_FFS:
            pid, nblocks = (a[0] >> 16) & 0xff, (a[0] >> 8) & 0xff
            rec["ff"] = ("start", pid, nblocks)
            self.fill_pid = pid
            for c in self.chips.values():
                c.ff = None if self.miss((c.x, c.y), pid) else dict(pid=pid, nblocks=nblocks, blocks={}, mask=0)
        elif op == NN_FFCS:
            mask, region = a[0] & 0x3ffff, a[1]
            rec["ff"] = ("select", region, mask)
            for c in self.chips.values():
                if c.ff is not None and self.region_selects(region, c.x, c.y):
                    c.ff["mask"] |= mask
        elif op == NN_FFE:
            pid, app, flags = a[0] & 0xff, a[1] >> 24, (a[1] >> 18) & 0x3f
            rec["ff"] = ("end", pid, app, flags)
            loaded = []
            for c in self.chips.values():
                ff, c.ff = c.ff, None
                if ff is None or ff["pid"] != pid or len(ff["blocks"]) != ff["nblocks"]:
                    continue
                image = b"".join(ff["blocks"][i] for i in sorted(ff["blocks"]))
                for i in range(1, c.ncores):
                    if (ff["mask"] >> i) & 1:
                        c.core_image[i] = image
                        c.core_app[i] = app
                        c.core_state[i] = STATE_WAIT if flags & 1 else STATE_RUN
                        self._sync_core(c, i)
                        loaded.append((c.x, c.y, i))
            rec["loaded"] = loaded
        else:
            return RC_ARG
        return (), b""

    def _cmd_23(self, chip, p, a, data, rec):         # flood fill data
        pid = a[0] & 0xff
        block, size = a[1] >> 16, (a[1] >> 8) & 0xff
        nbytes = (size + 1) * 4
        rec["ff"] = ("data", pid, block, size, a[2], len(data))
        for c in self.chips.values():
            if c.ff is not None and c.ff["pid"] == pid:
                c.ff["blocks"][block] = bytes(data[:nbytes])
                c.write(a[2], data[:nbytes])
        return (), b""
