"""Mechanical projections from rig objects to the JSON values the trace specifications read.
Nothing here judges anything; each function is covered by the self-tests of the checks using it."""
from rig.place_and_route.routing_tree import RoutingTree


def machine_json(machine):
    return dict(w=machine.width, h=machine.height,
                dead=sorted([int(x), int(y)] for (x, y) in machine.dead_chips),
                deadlinks=sorted([int(x), int(y), int(l)] for (x, y, l) in machine.dead_links))


def flatten_tree(root, vidx, max_nodes=100000):
    """RoutingTree -> (nodes, edges, leaves).  Node ids follow object identity, so an object reachable along
    two paths (or a cycle) shows up as a node with two parents instead of hanging the traversal."""
    ids = {}
    nodes, edges, leaves = [], [], []
    stack = [root]
    ids[id(root)] = 1
    nodes.append([int(root.chip[0]), int(root.chip[1])])
    while stack:
        node = stack.pop()
        nid = ids[id(node)]
        for route, child in node.children:
            if isinstance(child, RoutingTree):
                if id(child) not in ids:
                    if len(nodes) >= max_nodes:
                        raise RuntimeError("tree too large")
                    ids[id(child)] = len(nodes) + 1
                    nodes.append([int(child.chip[0]), int(child.chip[1])])
                    stack.append(child)
                edges.append([nid, -1 if route is None else int(route), ids[id(child)]])
            else:
                leaves.append([nid, -1 if route is None else int(route), vidx[child]])
    return nodes, edges, leaves
