"""CLI: ./check Cnn [--tier quick|thorough] [--replay PATH]

exit 0: property held on everything explored (KNOWN-FINDING lines possible)
exit 1: at least one VIOLATION line
exit 2: the machinery itself failed (TLC crash, time-out of the tool, harness bug)
"""
import argparse
import signal
import threading
import importlib
import os
import sys
import traceback

from .core import Check, MachineryError, import_rig


def main():
    ap = argparse.ArgumentParser()
    ap.add_argument("prop")
    ap.add_argument("--tier", default="quick", choices=["quick", "thorough"])
    ap.add_argument("--replay", default=None)
    ap.add_argument("--fast", action="store_true")
    a = ap.parse_args()
    tier = os.environ.get("VERIF_TIER") or a.tier
    if tier not in ("quick", "thorough"):
        tier = a.tier
    seed = int(os.environ.get("VERIF_SEED", "0") or 0)
    if a.prop == "selftest":
        from . import selftest
        sys.exit(selftest.main())
    pid = a.prop.upper()
    chk = Check(pid, tier, seed, a.replay)
    # A check that does not finish is itself a result: the code under test (or TLC on its traces) does not
    # terminate.  Quick checks take 10-160 s on the unchanged tree, thorough ones 3-15 min.
    limit = int(os.environ.get("VERIF_WALL_LIMIT", "1500" if tier == "quick" else "14400"))

    class WallLimit(BaseException):
        pass

    def on_alarm(signum, frame):
        raise WallLimit("".join(traceback.format_stack(frame)[-12:]))
    # (SIGUSR1 from a timer thread: SIGALRM / setitimer belong to the per-call watchdogs of some drivers)
    signal.signal(signal.SIGUSR1, on_alarm)
    timer = threading.Timer(limit, lambda: os.kill(os.getpid(), signal.SIGUSR1))
    timer.daemon = True
    timer.start()
    try:
        _run(chk, pid, tier, seed)
    except WallLimit as ex:
        chk.violation("did not finish within %d s" % limit,
                      "the %s check did not finish within %d s (unchanged tree: minutes at most): the code under test, "
                      "or the validation of its traces, does not terminate" % (pid, limit),
                      dict(stack_at_time_limit=str(ex)))
        sys.exit(chk.finish())


def generic_replay(chk):
    """Drivers without their own replay support: the recorded trace of a VIOLATION file (the execution of rig
    exactly as it was observed, inputs included) is judged again by TLC against the current specification, and the
    failing clauses are printed.  (Drivers with replay support re-execute rig on the recorded input instead.)"""
    import json
    with open(chk.replay_path) as f:
        rp = json.load(f)["replay"]
    if "trace" not in rp:
        raise MachineryError("%s carries no recorded trace" % chk.replay_path)
    chk.rule = "re-validation of the trace recorded in %s" % chk.replay_path
    chk.note_case(rp["trace"])
    chk.sample(str(rp["trace"])[:400])
    rej = chk.validate(rp["module"], rp["cfg"], [rp["trace"]], workers=1,
                       key_of=lambda tr, i, cl: "replayed: event %d clauses %s" % (i, ",".join(cl)))
    for tr, i, cl in rej:
        print("REPLAY: rejected at event %d by clauses %s" % (i, cl))
    if not rej:
        print("REPLAY: the recorded trace is accepted by the current specification")


def _run(chk, pid, tier, seed):
    try:
        try:
            import_rig()
            mod = importlib.import_module("harness.props." + pid.lower())
        except MachineryError:
            raise
        except Exception as ex:
            # rig (or the part this property needs) cannot even be imported from the tree
            chk.violation("import", "cannot import rig for %s: %r" % (pid, ex),
                          dict(traceback=traceback.format_exc()))
            sys.exit(chk.finish())
        if chk.replay_path and "replay_path" not in open(mod.__file__).read():
            generic_replay(chk)
        else:
            mod.run(chk)
        rc = chk.finish()
    except MachineryError as ex:
        print("MACHINERY-ERROR %s: %s" % (pid, ex))
        sys.exit(2)
    except Exception as ex:
        # An exception escaping from rig itself at a point where the driver expected none: on the unchanged tree the
        # drivers run to completion, so this is the code under test misbehaving (e.g. a KeyError deep inside a
        # helper), not the machinery.  Anything raised by the harness's own code stays a machinery error.
        tb = traceback.extract_tb(ex.__traceback__)
        from .core import RIG_ROOT
        if tb and os.path.abspath(tb[-1].filename).startswith(os.path.abspath(RIG_ROOT) + os.sep):
            where = "%s:%s" % (os.path.relpath(tb[-1].filename, RIG_ROOT), tb[-1].name)
            chk.violation("unexpected %s raised in %s" % (type(ex).__name__, where),
                          "rig raised %s (%s) in %s while the %s driver was exercising it; on the unchanged tree "
                          "this call completes" % (type(ex).__name__, ex, where, pid),
                          dict(traceback=traceback.format_exc()))
            sys.exit(chk.finish())
        traceback.print_exc()
        print("MACHINERY-ERROR %s: unexpected exception in the harness" % pid)
        sys.exit(2)
    print("%s %s tier=%s seed=%d states=%d traces=%d evals=%d wall=%.1fs" % (
        pid, "OK" if rc == 0 else "FAIL", tier, seed, chk.states, chk.traces_ok + chk.replayed,
        chk.evaluations, __import__("time").time() - chk.t0))
    sys.exit(rc)


if __name__ == "__main__":
    main()
