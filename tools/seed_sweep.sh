#!/bin/sh
# tools/seed_sweep.sh <seed>...   run every quick check under the given seeds; print one line per run
for s in "$@"; do
  for i in 01 02 03 04 05 06 07 08 09 10 11 12 13 14 15 16 17 18 19 20; do
    out=$(VERIF_SEED=$s ./check C$i --tier quick 2>&1 | grep -v "^KNOWN" | tail -3 | tr '\n' ' ' | cut -c1-300)
    echo "seed=$s C$i rc=$? :: $out"
  done
done
