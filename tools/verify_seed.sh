#!/bin/sh
# tools/verify_seed.sh <seed-dir>   (seed-dir has patch.diff and demo.py)
# Confirms in a scratch worktree: demo exits 0 clean / 1 patched; FAILED/ERROR test set unchanged.
d=$(readlink -f "$1")
wt=/tmp/wt-verify-$$
git -C /repo worktree add --detach $wt HEAD >/dev/null 2>&1 || exit 3
runtests() { (cd $wt && /venv/bin/python -m pytest -q -p no:cacheprovider --timeout=900 --continue-on-collection-errors 2>&1 | grep -E "^(FAILED|ERROR)" | sed 's/ - .*//' | sort); }
head=$(git -C /repo rev-parse --short HEAD)
base=/tmp/seed-out/baseline-fails-$head.txt
[ -f $base ] || runtests > $base
(cd $wt && /venv/bin/python $d/demo.py >/dev/null 2>&1); clean=$?
git -C $wt apply $d/patch.diff || { echo "patch does not apply"; git -C /repo worktree remove --force $wt; exit 3; }
(cd $wt && /venv/bin/python $d/demo.py >/tmp/seed-demo-$$.out 2>&1); patched=$?
runtests > /tmp/seed-fails-$$.txt
if diff -q $base /tmp/seed-fails-$$.txt >/dev/null; then tests=same; else tests=DIFFERENT; diff $base /tmp/seed-fails-$$.txt | head -5; fi
echo "seed=$d demo_clean=$clean demo_patched=$patched tests=$tests"
tail -3 /tmp/seed-demo-$$.out
rm -f /tmp/seed-demo-$$.out /tmp/seed-fails-$$.txt
git -C /repo worktree remove --force $wt
[ "$clean" = 0 ] && [ "$patched" = 1 ] && [ "$tests" = same ]
