#!/bin/sh
# Run the repository's pinned baseline (hooks guard OFF) and compare with BASELINE.json's stable_pass.
# exit 0 iff every stable_pass test still passes.
unset RIG_VERIF
out=$(mktemp /tmp/rigverif-junit.XXXXXX.xml)
(cd /repo && /venv/bin/python -m pytest -ra -q -p no:cacheprovider --timeout=900 --continue-on-collection-errors --junitxml=$out >/dev/null 2>&1)
/venv/bin/python - "$out" <<'PY'
import json, sys, xml.etree.ElementTree as ET
b = json.load(open('/root/.vp/BASELINE.json'))
root = ET.parse(sys.argv[1]).getroot()
passed, failed = set(), set()
for tc in root.iter("testcase"):
    tid = (tc.get("classname") or "") + "::" + (tc.get("name") or "")
    if tc.find("failure") is not None or tc.find("error") is not None: failed.add(tid)
    elif tc.find("skipped") is not None: pass
    else: passed.add(tid)
passed -= failed
missing = [t for t in b['stable_pass'] if t not in passed]
print("passed=%d failed=%d baseline=%d missing=%d" % (len(passed), len(failed), len(b['stable_pass']), len(missing)))
for m in missing[:20]: print("MISSING", m)
sys.exit(1 if missing else 0)
PY
rc=$?
rm -f "$out"
exit $rc
