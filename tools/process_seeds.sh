#!/bin/sh
# tools/process_seeds.sh <Cnn> <seed-root>   verify every seed under <seed-root>/<Cnn>/ and run the quick check against it
p=$1; root=${2:-/tmp/seed-out2}
for d in $root/$p/*/; do
  [ -f "$d/patch.diff" ] || continue
  v=$(/verif/tools/verify_seed.sh "$d" 2>&1 | grep "^seed=\|does not apply" | sed "s|seed=$root/||")
  m=$(/verif/tools/try_mutant.sh "$d/patch.diff" $p 2>&1 | grep -v KNOWN | grep "VIOLATION\|exit=" | head -2 | tr '\n' ' ' | sed 's|replay=/verif/replay/[^ ]*||g')
  echo "$v || $m"
done
