#!/bin/sh
# tools/seed_sanity.sh <parallelism> <seed>...   every quick check under other random seeds on the unchanged tree:
# each must exit 0 (a VIOLATION here is a false alarm or a new finding and must be triaged)
P=$1; shift
for s in "$@"; do for i in 01 02 03 04 05 06 07 08 09 10 11 12 13 14 15 16 17 18 19 20; do echo "$s C$i"; done; done |
xargs -P $P -L 1 sh -c 'out=$(VERIF_SEED=$0 ./check $1 --tier quick 2>&1); rc=$?; echo "seed=$0 $1 exit=$rc $(echo "$out" | grep -E "VIOLATION|MACHINERY" | head -3 | tr "\n" " " | cut -c1-300)"'
