#!/bin/sh
# tools/process_benign.sh <Cnn> [root]   verify every property-preserving change under <root>/<Cnn>/ and run the quick
# check against it: the check must exit 0 (a VIOLATION is a false alarm).
p=$1; root=${2:-/tmp/benign-out}
for d in $root/$p/*/; do
  [ -f "$d/patch.diff" ] || continue
  v=$(/verif/tools/verify_benign.sh "$d" 2>&1 | grep "^benign=\|does not apply" | sed "s|benign=$root/||")
  m=$(MUTANT_LINES=4 /verif/tools/try_mutant.sh "$d/patch.diff" $p 2>&1 | grep -v KNOWN | grep "VIOLATION\|MACHINERY\|exit=" | head -3 | tr '\n' ' ' | sed 's|replay=/verif/replay/[^ ]*||g')
  echo "$v || $m"
done
