#!/usr/bin/env python3
"""tools/keep_benign.py <dir> <Cnn> <quiet:yes|no-then-fixed> "<what it changes>" "<what was corrected, if anything>"
Copies patch.diff, demo.py, notes.md of a PROPERTY-PRESERVING change into /verif/seeded-benign/<Cnn>-<name>/ with meta.json."""
import json, os, shutil, sys, subprocess
src, pid, quiet, what, fix = sys.argv[1:6]
name = os.path.basename(os.path.normpath(src))
dst = "/verif/seeded-benign/%s-%s" % (pid, name)
os.makedirs(dst, exist_ok=True)
for f in ("patch.diff", "demo.py", "notes.md"):
    if os.path.exists(os.path.join(src, f)):
        shutil.copy(os.path.join(src, f), dst)
head = subprocess.check_output(["git", "-C", "/repo", "rev-parse", "--short", "HEAD"]).decode().strip()
json.dump(dict(property=pid, name=name, kind="property-preserving change (the check must stay quiet)", changes=what,
               origin="independent sub-agent given only the property text and a scratch worktree",
               confirmed=dict(repo_head=head, cmd="tools/verify_benign.sh <dir>",
                              result="demo exits 0 with and without the patch (property holds on its inputs) and prints "
                                     "CHANGED only with it; FAILED/ERROR set of the test suite identical"),
               quick_check_quiet=quiet, correction=fix,
               how_to_rerun="tools/try_mutant.sh seeded-benign/%s-%s/patch.diff %s   (expected: exit=0)" % (pid, name, pid)),
          open(os.path.join(dst, "meta.json"), "w"), indent=1)
print(dst)
