#!/bin/sh
# tools/verify_benign.sh <dir>   (dir has patch.diff and demo.py of a PROPERTY-PRESERVING change)
# Confirms in a scratch worktree: demo exits 0 clean and patched, prints CHANGED only when patched; FAILED/ERROR test set unchanged.
d=$(readlink -f "$1")
wt=/tmp/wt-bverify-$$
git -C /repo worktree add --detach $wt HEAD >/dev/null 2>&1 || exit 3
runtests() { (cd $wt && /venv/bin/python -m pytest -q -p no:cacheprovider --timeout=900 --continue-on-collection-errors 2>&1 | grep -E "^(FAILED|ERROR)" | sed 's/ - .*//' | sort); }
head=$(git -C /repo rev-parse --short HEAD)
mkdir -p /tmp/seed-out
base=/tmp/seed-out/baseline-fails-$head.txt
[ -f $base ] || runtests > $base
(cd $wt && /venv/bin/python $d/demo.py >/tmp/benign-demo-$$.out 2>&1); clean=$?
cleanchg=$(grep -c "^CHANGED\|[^N]CHANGED" /tmp/benign-demo-$$.out)
git -C $wt apply $d/patch.diff || { echo "patch does not apply"; git -C /repo worktree remove --force $wt; exit 3; }
(cd $wt && /venv/bin/python $d/demo.py >/tmp/benign-demo-$$.out 2>&1); patched=$?
patchedchg=$(grep -c "^CHANGED\|[^N]CHANGED" /tmp/benign-demo-$$.out)
runtests > /tmp/benign-fails-$$.txt
if diff -q $base /tmp/benign-fails-$$.txt >/dev/null; then tests=same; else tests=DIFFERENT; diff $base /tmp/benign-fails-$$.txt | head -5; fi
echo "benign=$d demo_clean=$clean demo_patched=$patched changed_clean=$cleanchg changed_patched=$patchedchg tests=$tests"
rm -f /tmp/benign-demo-$$.out /tmp/benign-fails-$$.txt
git -C /repo worktree remove --force $wt
[ "$clean" = 0 ] && [ "$patched" = 0 ] && [ "$tests" = same ]
