#!/usr/bin/env python3
"""Regenerate MANIFEST.json from the table below (single source of truth for the interface)."""
import json, os
HERE = os.path.dirname(os.path.dirname(os.path.abspath(__file__)))
ALL = ["C%02d" % i for i in range(1, 21)]

# pid -> (technique, level text, level note, design ref)
CLAIMED = {
 "C11": ("TLA+ spec Hex/HexDesign model-checked by TLC (BFS distances, walk machine) + TLC trace validation of every value returned by rig.geometry / rig.links / longest_dimension_first (GeometryTrace.tla)",
         "Design: TLC proves, for every torus up to N x N, that BFS distance is translation invariant and equals the closed forms, and explores the walk state machine exhaustively. Conformance: each value rig returns is an event that TLC judges against the BFS tables; all source/destination pairs of all small tori are enumerated, larger ones sampled.",
         "Trusted: TLC, the Json override, the mechanical event encoding in harness/props/c11.py. Random tie-breaks are sampled (several seeds), not enumerated.",
         "DESIGN.md §6 C11"),
 "C19": ("TLA+ spec Spinn5 (48-chip tile, three-board tiling) with TLC-evaluated partition/edge obligations and a walk machine (Spinn5Design) + TLC trace validation of rig's five SpiNN-5 functions (Spinn5Trace.tla)",
         "Design: TLC checks that the tile has 48 chips, that the boards partition the plane, that 48 links leave a board, and (state machine) that stepping over a leaving link is exactly what changes the local Ethernet chip. Conformance: every returned value is an event judged against the tiling, never against rig's tables.",
         "Trusted: TLC, Json override, event encoding in harness/props/c19.py. On ragged machines the local Ethernet chip is judged only when the board origin lies inside the machine.",
         "DESIGN.md §6 C19"),
 "C15": ("TLA+ spec Packets (byte-sequence wire layout) model-checked for round trip / field isolation (PacketsDesign) + TLC trace validation of rig's encode/decode results (PacketsTrace.tla)",
         "Design: TLC sweeps every header field over its width against all-zero/all-one neighbours and checks round trip, fewer-argument decoding and byte-level isolation of the layout. Conformance: every bytestring rig produces and every packet it decodes is an event compared with the layout by TLC.",
         "Trusted: TLC, Json override, the mechanical int->little-endian-bytes encoding of 32-bit arguments in harness/props/c15.py.",
         "DESIGN.md §6 C15"),
 "C12": ("TLA+ spec Regions (meaning of a region word) + RegionsDesign (collapse rule, every insertion order, TLC exhaustive) + TLC trace validation of compress_flood_fill_regions / get_region_for_chip (RegionsTrace.tla)",
         "Design: the per-core collapse rule on a scaled hierarchy selects exactly the added cores once, for every insertion order (65k states). Conformance: every (region, core mask) list rig returns is judged by covering + counting, strict order and well-formedness.",
         "Trusted: TLC, Json override, the region-word meaning written in Regions.tla from 'Managing Big SpiNNaker Machines' as quoted in regions.py; word -> 4 bytes encoding in the harness.",
         "DESIGN.md §6 C12"),
 "C05": ("TLA+ spec Allocate + AllocateDesign (the greedy scan as coded; soundness, progress, termination under fairness, completeness; TLC exhaustive) + TLC trace validation of every range allocate() grants (AllocateTrace.tla)",
         "Design: TLC explores the scan for every reservation layout/order, request sequence and alignment at small constants, including liveness. Conformance: each call of allocate() is a trace (grant events, then ok/raise) with Size/InRange/OnAlignment/Unreserved/Disjoint/Once/AllGranted/OnlyDocumentedError/Complete clauses evaluated by TLC.",
         "Trusted: TLC, Json override, the projection of constraints and results into the trace in harness/props/c05.py. Completeness is judged only for non-overlapping end reservations without alignment (the property's own precondition).",
         "DESIGN.md §6 C05"),
}
NOT_YET = "check not built yet in this round (planned in DESIGN.md §6); not claimed until its spec and conformance harness exist"

def main():
    checks = []
    for pid in ALL:
        if pid not in CLAIMED:
            continue
        tech, text, note, ref = CLAIMED[pid]
        checks.append(dict(
            property_id=pid,
            quick_cmd="./check %s --tier quick" % pid,
            thorough_cmd="./check %s --tier thorough" % pid,
            evidence_file="/verif/evidence/%s.json" % pid,
            replay_cmd_template="./check %s --replay {path}" % pid,
            engine="tlc-trace",
            level_claimed=dict(category="model_checking", text=text, design_ref=ref),
            level_note=note,
            technique=tech))
    m = dict(
        version=1,
        setup_cmd="./check selftest --fast",
        hooks=dict(guard="RIG_VERIF", enable="environment variable RIG_VERIF=1 (set by ./check); no hook is currently compiled into rig",
                   baseline_off_cmd="/verif/tools/baseline.sh", source_commits=[], add_only=True),
        engines=[dict(name="tlc-trace", path="/verif/check", serves_properties=sorted(CLAIMED),
                      kind_free_text="explicit TLA+ specifications in /verif/spec checked by TLC: design jobs (exhaustive at small constants), trace validation of recorded rig executions, replay of TLC-generated behaviours into rig")],
        checks=checks,
        notes="See DESIGN.md. known_findings.json lists findings/fixed entries.",
        not_applicable=[dict(property_id=p, reason=NOT_YET) for p in ALL if p not in CLAIMED],
    )
    with open(os.path.join(HERE, "MANIFEST.json"), "w") as f:
        json.dump(m, f, indent=1)

main()
