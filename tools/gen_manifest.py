#!/usr/bin/env python3
"""Regenerate MANIFEST.json from the table below (single source of truth for the interface)."""
import json, os
HERE = os.path.dirname(os.path.dirname(os.path.abspath(__file__)))
ALL = ["C%02d" % i for i in range(1, 21)]

# pid -> (technique, level text, level note, design ref)
CLAIMED = {
 "C11": ("TLA+ spec Hex/HexDesign model-checked by TLC (BFS distances, walk machine) + TLC trace validation of every value returned by rig.geometry / rig.links / longest_dimension_first (GeometryTrace.tla)",
         "Design: TLC proves, for every torus up to N x N, that BFS distance is translation invariant and equals the closed forms, and explores the walk state machine exhaustively. Conformance: each value rig returns is an event that TLC judges against the BFS tables; all source/destination pairs of all small tori are enumerated, larger ones sampled.",
         "Trusted: TLC, the Json override, the mechanical event encoding in harness/props/c11.py. Random tie-breaks are sampled (several seeds), not enumerated.",
         "DESIGN.md §6 C11"),
 "C19": ("TLA+ spec Spinn5 (48-chip tile, three-board tiling) with TLC-evaluated partition/edge obligations and a walk machine (Spinn5Design) + TLC trace validation of rig's five SpiNN-5 functions (Spinn5Trace.tla)",
         "Design: TLC checks that the tile has 48 chips, that the boards partition the plane, that 48 links leave a board, and (state machine) that stepping over a leaving link is exactly what changes the local Ethernet chip. Conformance: every returned value is an event judged against the tiling, never against rig's tables.",
         "Trusted: TLC, Json override, event encoding in harness/props/c19.py. On ragged machines the local Ethernet chip is judged only when the board origin lies inside the machine.",
         "DESIGN.md §6 C19"),
 "C15": ("TLA+ spec Packets (byte-sequence wire layout) model-checked for round trip / field isolation (PacketsDesign) + TLC trace validation of rig's encode/decode results (PacketsTrace.tla)",
         "Design: TLC sweeps every header field over its width against all-zero/all-one neighbours and checks round trip, fewer-argument decoding and byte-level isolation of the layout. Conformance: every bytestring rig produces and every packet it decodes is an event compared with the layout by TLC.",
         "Trusted: TLC, Json override, the mechanical int->little-endian-bytes encoding of 32-bit arguments in harness/props/c15.py.",
         "DESIGN.md §6 C15"),
 "C12": ("TLA+ spec Regions (meaning of a region word) + RegionsDesign (collapse rule, every insertion order, TLC exhaustive) + TLC trace validation of compress_flood_fill_regions / get_region_for_chip (RegionsTrace.tla)",
         "Design: the per-core collapse rule on a scaled hierarchy selects exactly the added cores once, for every insertion order (65k states). Conformance: every (region, core mask) list rig returns is judged by covering + counting, strict order and well-formedness.",
         "Trusted: TLC, Json override, the region-word meaning written in Regions.tla from 'Managing Big SpiNNaker Machines' as quoted in regions.py; word -> 4 bytes encoding in the harness.",
         "DESIGN.md §6 C12"),
 "C05": ("TLA+ spec Allocate + AllocateDesign (the greedy scan as coded; soundness, progress, termination under fairness, completeness; TLC exhaustive) + TLC trace validation of every range allocate() grants (AllocateTrace.tla)",
         "Design: TLC explores the scan for every reservation layout/order, request sequence and alignment at small constants, including liveness. Conformance: each call of allocate() is a trace (grant events, then ok/raise) with Size/InRange/OnAlignment/Unreserved/Disjoint/Once/AllGranted/OnlyDocumentedError/Complete clauses evaluated by TLC.",
         "Trusted: TLC, Json override, the projection of constraints and results into the trace in harness/props/c05.py. Completeness is judged only for non-overlapping end reservations without alignment (the property's own precondition).",
         "DESIGN.md §6 C05"),
 "C04": ("TLA+ specs KeyMask/RoutingTable (first-match lookup, Equivalent over all keys) + OrderedCoveringDesign (merge/up-check/down-check/alias rules and default-route removal as a state machine; TLC exhaustive) + TLC trace validation of every minimiser result and every single-stepped merge (RoutingTableTrace.tla)",
         "Design: from every orthogonal or generality-ordered table at small width, any sequence of merges passing rule (a)/(b) followed by default-route removal keeps the table Equivalent to the original (1-3 M states). Conformance: results of remove_default_routes, ordered_covering, minimise_table, minimise_tables for all targets, and each intermediate table of ordered covering, are judged by TLC with Equivalent quantified over all 2^W keys, plus NotLonger/MeetsTarget/FailHonest/FailReportsBest/OnlyDocumentedError.",
         "Trusted: TLC + Bitwise override, table encoding in harness/props/c04.py. Tables use W <= 10 active key bits; the remaining bits are fixed per table and TLC checks they stay fixed (FixedBits), which makes the low-bit comparison exact. FailReportsBest compares with a second rig run without target (relational).",
         "DESIGN.md §6 C04"),
 "C03": ("TLA+ specs Hex (fabric, liveness, connectivity by BFS) / RoutingTree (TreeValid) + NerRepairDesign (dead-link repair as a state machine on a small torus; the pinned repair rule is refuted by TLC) + TLC trace validation of every tree route()/ner_net return (RoutingTreeTrace.tla)",
         "Design: TLC explores every small tree x dead-link set x A* path and proves the repair keeps one parent per node and ends in a live spanning tree; the variant modelling the pinned code is refuted (counter-example = the defect fixed in d1ee90f). Conformance: each returned tree is an event with RootAtSource/ChipOnce/IsTree/HopsLive/NodesLive/LeavesExact/SinkChipsInTree clauses; a raised error must be the disconnected-machine error on a machine the spec itself finds disconnected.",
         "Trusted: TLC, tree flattening in harness/proj.py (by object identity, self-tested), machine encoding. Random tie-breaks are seeded, not enumerated.",
         "DESIGN.md §6 C03"),
 "C02": ("TLA+ specs Placement (Feasible, Easy) + PlacementDesign (first-fit cyclic/advance-only + annealing swaps; the two-resource variant of the success guarantee is refuted) + TLC trace validation of every placer configuration's result (PlacementTrace.tla)",
         "Design: no chip ever over-committed under any swap sequence; first-fit never fails on unit-demand single-resource problems that fit. Conformance: nine placer configurations per problem plus annealing with both kernels (snapshots at temperature changes) judged by EveryVertexOnAWorkingChip/WithinResources/LocationsHonoured/SameChipHonoured/SwapKeepsFeasible/OnlyDocumentedErrors/MustSucceed.",
         "Trusted: TLC, problem/placement encoding in harness/props/c02.py. Termination is an observation (120 s watchdog), the C kernel is observed at temperature changes and at the end only.",
         "DESIGN.md §6 C02"),
 "C16": ("TLA+ spec FixedPoint (exact symbolic arithmetic on bit sequences: ToFp = clamp(trunc(x * 2^f))) + FixedPointDesign (toy float line, all small formats; TLC exhaustive) + TLC trace validation of float_to_fp / fp_to_float / NumPy converters / deprecated variants (FixedPointTrace.tla)",
         "Design: clamp/trunc, range, monotonicity, within-one-step and round trip checked against integer arithmetic on a toy float format for all formats n <= 6-7. Conformance: every conversion result is an event; doubles travel as exact sign/mantissa/exponent, 64-bit values as limbs, so TLC decides exact expected values.",
         "Trusted: TLC, float.hex-based decomposition in harness/props/c16.py, NumPy/CPython float semantics. Round trip is demanded for values spanning <= 53 bits; arrays are float64.",
         "DESIGN.md §6 C16, §7"),
 "C20": ("TLA+ spec Boot (datagram layout, un-swapping, config area = packed defaults + options, history clauses) + BootDesign (datagram-level state machine; leaky-default variants refuted) + TLC trace validation of boot histories (BootTrace.tla)",
         "Design: 2-3 boots x option sets x image lengths; the leaking-default variant violates OnlyOwnOptions as it must. Conformance: histories of 1-4 boots in one (forked) process against a recording socket: every datagram is judged (StartAnnouncesBlocks, BlocksConsecutive, EndAfterBlocks, ImageReassembles, ConfigIsDefaultsPlusOptions, OnlyOwnOptions, ConfigDependsOnOwnOptionsOnly, ReturnedStructsAgree, SentToBootedBoard).",
         "Trusted: TLC, fake socket/time substituted from outside, transcription of the sv struct in Boot.tla from sark.struct. unix_time/boot_sig/root_chip are masked.",
         "DESIGN.md §6 C20"),
}
NOT_YET = "check not built yet in this round (planned in DESIGN.md §6); not claimed until its spec and conformance harness exist"

def main():
    checks = []
    for pid in ALL:
        if pid not in CLAIMED:
            continue
        tech, text, note, ref = CLAIMED[pid]
        checks.append(dict(
            property_id=pid,
            quick_cmd="./check %s --tier quick" % pid,
            thorough_cmd="./check %s --tier thorough" % pid,
            evidence_file="/verif/evidence/%s.json" % pid,
            replay_cmd_template="./check %s --replay {path}" % pid,
            engine="tlc-trace",
            level_claimed=dict(category="model_checking", text=text, design_ref=ref),
            level_note=note,
            technique=tech))
    m = dict(
        version=1,
        setup_cmd="./check selftest --fast",
        hooks=dict(guard="RIG_VERIF", enable="environment variable RIG_VERIF=1 (set by ./check); no hook is currently compiled into rig",
                   baseline_off_cmd="/verif/tools/baseline.sh", source_commits=[], add_only=True),
        engines=[dict(name="tlc-trace", path="/verif/check", serves_properties=sorted(CLAIMED),
                      kind_free_text="explicit TLA+ specifications in /verif/spec checked by TLC: design jobs (exhaustive at small constants), trace validation of recorded rig executions, replay of TLC-generated behaviours into rig")],
        checks=checks,
        notes="See DESIGN.md. known_findings.json lists findings/fixed entries.",
        not_applicable=[dict(property_id=p, reason=NOT_YET) for p in ALL if p not in CLAIMED],
    )
    with open(os.path.join(HERE, "MANIFEST.json"), "w") as f:
        json.dump(m, f, indent=1)

main()
