#!/usr/bin/env python3
"""Regenerate MANIFEST.json from the table below (single source of truth for the interface)."""
import json, os
HERE = os.path.dirname(os.path.dirname(os.path.abspath(__file__)))
ALL = ["C%02d" % i for i in range(1, 21)]

# pid -> (technique, level text, level note, design ref)
CLAIMED = {
 "C11": ("TLA+ spec Hex/HexDesign model-checked by TLC (BFS distances, walk machine) + TLC trace validation of every value returned by rig.geometry / rig.links / longest_dimension_first (GeometryTrace.tla)",
         "Design: TLC proves, for every torus up to N x N, that BFS distance is translation invariant and equals the closed forms, and explores the walk state machine exhaustively. Conformance: each value rig returns is an event that TLC judges against the BFS tables; all source/destination pairs of all small tori are enumerated, larger ones sampled.",
         "Trusted: TLC, the Json override, the mechanical event encoding in harness/props/c11.py. Random tie-breaks are sampled (several seeds), not enumerated.",
         "DESIGN.md §6 C11"),
}
NOT_YET = "check not built yet in this round (planned in DESIGN.md §6); not claimed until its spec and conformance harness exist"

def main():
    checks = []
    for pid in ALL:
        if pid not in CLAIMED:
            continue
        tech, text, note, ref = CLAIMED[pid]
        checks.append(dict(
            property_id=pid,
            quick_cmd="./check %s --tier quick" % pid,
            thorough_cmd="./check %s --tier thorough" % pid,
            evidence_file="/verif/evidence/%s.json" % pid,
            replay_cmd_template="./check %s --replay {path}" % pid,
            engine="tlc-trace",
            level_claimed=dict(category="model_checking", text=text, design_ref=ref),
            level_note=note,
            technique=tech))
    m = dict(
        version=1,
        setup_cmd="./check selftest --fast",
        hooks=dict(guard="RIG_VERIF", enable="environment variable RIG_VERIF=1 (set by ./check); no hook is currently compiled into rig",
                   baseline_off_cmd="/verif/tools/baseline.sh", source_commits=[], add_only=True),
        engines=[dict(name="tlc-trace", path="/verif/check", serves_properties=sorted(CLAIMED),
                      kind_free_text="explicit TLA+ specifications in /verif/spec checked by TLC: design jobs (exhaustive at small constants), trace validation of recorded rig executions, replay of TLC-generated behaviours into rig")],
        checks=checks,
        notes="See DESIGN.md. known_findings.json lists findings/fixed entries.",
        not_applicable=[dict(property_id=p, reason=NOT_YET) for p in ALL if p not in CLAIMED],
    )
    with open(os.path.join(HERE, "MANIFEST.json"), "w") as f:
        json.dump(m, f, indent=1)

main()
