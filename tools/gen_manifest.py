#!/usr/bin/env python3
"""Regenerate MANIFEST.json from the table below (single source of truth for the interface)."""
import json, os
HERE = os.path.dirname(os.path.dirname(os.path.abspath(__file__)))
ALL = ["C%02d" % i for i in range(1, 21)]

# pid -> (technique, level text, level note, design ref)
CLAIMED = {
 "C11": ("TLA+ spec Hex/HexDesign model-checked by TLC (BFS distances, walk machine) + TLC trace validation of every value returned by rig.geometry / rig.links / longest_dimension_first (GeometryTrace.tla)",
         "Design: TLC proves, for every torus up to N x N, that BFS distance is translation invariant and equals the closed forms, and explores the walk state machine exhaustively. Conformance: each value rig returns is an event that TLC judges against the BFS tables; all source/destination pairs of all small tori are enumerated, larger ones sampled.",
         "Trusted: TLC, the Json override, the mechanical event encoding in harness/props/c11.py. Random tie-breaks are sampled (several seeds), not enumerated.",
         "DESIGN.md §6 C11"),
 "C19": ("TLA+ spec Spinn5 (48-chip tile, three-board tiling) with TLC-evaluated partition/edge obligations and a walk machine (Spinn5Design) + TLC trace validation of rig's five SpiNN-5 functions (Spinn5Trace.tla)",
         "Design: TLC checks that the tile has 48 chips, that the boards partition the plane, that 48 links leave a board, and (state machine) that stepping over a leaving link is exactly what changes the local Ethernet chip. Conformance: every returned value is an event judged against the tiling, never against rig's tables.",
         "Trusted: TLC, Json override, event encoding in harness/props/c19.py. On ragged machines the local Ethernet chip is judged only when the board origin lies inside the machine.",
         "DESIGN.md §6 C19"),
 "C15": ("TLA+ spec Packets (byte-sequence wire layout) model-checked for round trip / field isolation (PacketsDesign) + TLC trace validation of rig's encode/decode results (PacketsTrace.tla)",
         "Design: TLC sweeps every header field over its width against all-zero/all-one neighbours and checks round trip, fewer-argument decoding and byte-level isolation of the layout. Conformance: every bytestring rig produces and every packet it decodes is an event compared with the layout by TLC.",
         "Trusted: TLC, Json override, the mechanical int->little-endian-bytes encoding of 32-bit arguments in harness/props/c15.py.",
         "DESIGN.md §6 C15"),
 "C12": ("TLA+ spec Regions (meaning of a region word) + RegionsDesign (collapse rule, every insertion order, TLC exhaustive) + TLC trace validation of compress_flood_fill_regions / get_region_for_chip (RegionsTrace.tla)",
         "Design: the per-core collapse rule on a scaled hierarchy selects exactly the added cores once, for every insertion order (65k states). Conformance: every (region, core mask) list rig returns is judged by covering + counting, strict order and well-formedness.",
         "Trusted: TLC, Json override, the region-word meaning written in Regions.tla from 'Managing Big SpiNNaker Machines' as quoted in regions.py; word -> 4 bytes encoding in the harness.",
         "DESIGN.md §6 C12"),
 "C05": ("TLA+ spec Allocate + AllocateScan/AllocateDesign (the greedy scan as coded; soundness, progress, termination under fairness, completeness; TLC exhaustive) + AllocateInd (Apalache: inductive invariant of the scan for unbounded capacity, sizes and alignment; a wrong scan refuted) + TLC trace validation of every range allocate() grants (AllocateTrace.tla), incl. resources counted beyond 2^53 / 2^60 units; hosts, beyond the property, Glue/GlueDesign/GlueTrace (sdram_alloc_for_vertices, build_application_map, build_routing_tables)",
         "Design: TLC explores the scan for every reservation layout/order, request sequence and alignment at small constants, including liveness. Conformance: each call of allocate() is a trace (grant events, then ok/raise) with Size/InRange/OnAlignment/Unreserved/Disjoint/Once/AllGranted/OnlyDocumentedError/Complete clauses evaluated by TLC.",
         "Trusted: TLC, Json override, the projection of constraints and results into the trace in harness/props/c05.py. Completeness is judged only for non-overlapping end reservations without alignment (the property's own precondition).",
         "DESIGN.md §6 C05"),
 "C04": ("TLA+ specs KeyMask/RoutingTable (first-match lookup, Equivalent over all keys) + OrderedCoveringDesign (merge/up-check/down-check/alias rules and default-route removal as a state machine; TLC exhaustive) + TLC trace validation of every minimiser result and every single-stepped merge (RoutingTableTrace.tla)",
         "Design: from every orthogonal or generality-ordered table at small width, any sequence of merges passing rule (a)/(b) followed by default-route removal keeps the table Equivalent to the original (1-3 M states). Conformance: results of remove_default_routes, ordered_covering, minimise_table, minimise_tables for all targets, and each intermediate table of ordered covering, are judged by TLC with Equivalent quantified over all 2^W keys, plus NotLonger/MeetsTarget/FailHonest/FailReportsBest/OnlyDocumentedError.",
         "Trusted: TLC + Bitwise override, table encoding in harness/props/c04.py. Tables use W <= 10 active key bits; the remaining bits are fixed per table and TLC checks they stay fixed (FixedBits), which makes the low-bit comparison exact. FailReportsBest compares with a second rig run without target (relational).",
         "DESIGN.md §6 C04"),
 "C03": ("TLA+ specs Hex (fabric, liveness, connectivity by BFS) / RoutingTree (TreeValid) + NerRepairDesign (dead-link repair as a state machine on a small torus; the pinned repair rule is refuted by TLC) + TLC trace validation of every tree route()/ner_net return (RoutingTreeTrace.tla)",
         "Design: TLC explores every small tree x dead-link set x A* path and proves the repair keeps one parent per node and ends in a live spanning tree; the variant modelling the pinned code is refuted (counter-example = the defect fixed in d1ee90f). Conformance: each returned tree is an event with RootAtSource/ChipOnce/IsTree/HopsLive/NodesLive/LeavesExact/SinkChipsInTree clauses; a raised error must be the disconnected-machine error on a machine the spec itself finds disconnected.",
         "Trusted: TLC, tree flattening in harness/proj.py (by object identity, self-tested), machine encoding. Random tie-breaks are seeded, not enumerated.",
         "DESIGN.md §6 C03"),
 "C02": ("TLA+ specs Placement (Feasible, Easy) + PlacementDesign (first-fit cyclic/advance-only + annealing swaps; the two-resource variant of the success guarantee is refuted) + TLC trace validation of every placer configuration's result (PlacementTrace.tla)",
         "Design: no chip ever over-committed under any swap sequence; first-fit never fails on unit-demand single-resource problems that fit. Conformance: nine placer configurations per problem plus annealing with both kernels (snapshots at temperature changes) judged by EveryVertexOnAWorkingChip/WithinResources/LocationsHonoured/SameChipHonoured/SwapKeepsFeasible/OnlyDocumentedErrors/MustSucceed.",
         "Trusted: TLC, problem/placement encoding in harness/props/c02.py. Termination is an observation (120 s watchdog), the C kernel is observed at temperature changes and at the end only.",
         "DESIGN.md §6 C02"),
 "C16": ("TLA+ spec FixedPoint (exact symbolic arithmetic on bit sequences: ToFp = clamp(trunc(x * 2^f))) + FixedPointDesign (toy float line, all small formats; TLC exhaustive) + TLC trace validation of float_to_fp / fp_to_float / NumPy converters / deprecated variants (FixedPointTrace.tla)",
         "Design: clamp/trunc, range, monotonicity, within-one-step and round trip checked against integer arithmetic on a toy float format for all formats n <= 6-7. Conformance: every conversion result is an event; doubles travel as exact sign/mantissa/exponent, 64-bit values as limbs, so TLC decides exact expected values.",
         "Trusted: TLC, float.hex-based decomposition in harness/props/c16.py, NumPy/CPython float semantics. Round trip is demanded for values spanning <= 53 bits; arrays are float64.",
         "DESIGN.md §6 C16, §7"),
 "C20": ("TLA+ spec Boot (datagram layout, un-swapping, config area = packed defaults + options, history clauses) + BootDesign (datagram-level state machine; leaky-default variants refuted) + TLC trace validation of boot histories (BootTrace.tla); hosts, beyond the property, Bmp/BmpDesign/BmpTrace (BMPController sessions) and StructFile/StructFileDesign/StructFileTrace (struct files read, updated, packed)",
         "Design: 2-3 boots x option sets x image lengths; the leaking-default variant violates OnlyOwnOptions as it must. Conformance: histories of 1-4 boots in one (forked) process against a recording socket: every datagram is judged (StartAnnouncesBlocks, BlocksConsecutive, EndAfterBlocks, ImageReassembles, ConfigIsDefaultsPlusOptions, OnlyOwnOptions, ConfigDependsOnOwnOptionsOnly, ReturnedStructsAgree, SentToBootedBoard).",
         "Trusted: TLC, fake socket/time substituted from outside, transcription of the sv struct in Boot.tla from sark.struct. unix_time/boot_sig/root_chip are masked.",
         "DESIGN.md §6 C20"),
 "C01": ("TLA+ specs Multicast (router step, default routing, Propagate to quiescence) + MulticastDesign (tree -> tables -> default-route removal -> round-by-round propagation as TLC actions; wrong removal rule refuted) + MulticastTrace: the tables produced by the whole pipeline are EXECUTED by TLC for several keys of every net",
         "Design: every tree of <= 4-5 chips on a 3x2 / 3x3 torus x every sink set, with and without default-route removal: NoTrouble (no drop, no duplicate, no circulation), ExactAtQuiescence. Conformance: place / allocate / route / routing_tree_to_tables / minimise_tables by hand (7 placers x radii x 4 minimisation configurations x targets) and through both wrappers on generated machines with faults; TLC propagates each injected packet through the per-chip tables and judges NoDrop, LiveHardwareOnly, NoCirculation, AtMostOnce, ExactDelivery (cores and endpoint exits) and FixedBits.",
         "Trusted: TLC + Bitwise override, encodings in harness/props/c01.py and harness/proj.py. Expected cores come from the pipeline's own placements/allocations (judged by C02/C05). Keys use 10 active bits; endpoint links are dead links of the fabric.",
         "DESIGN.md §6 C01"),
 "C07": ("TLA+ specs Memory (windows, access types, CoversExactly) + MemoryDesign (chunking with any completion order, liveness) + MemoryTrace: TLC keeps its own model of the machine's memory and judges every SCP command and client call",
         "Design: every (address, length) in a 12-24 byte window x buffer sizes x window sizes, replies completing in any order, ByteExact / ChunksLegal / NothingElseTouched / termination. Conformance: real MachineController + SCPConnection against the simulated machine under lost / duplicated / late datagrams: read, write, fill, sv struct fields, per-core fields, link reads/writes; clauses WithinBuffer, AccessTypeAllowed, LinkWholeWords, CoversExactly, ReturnsStoredBytes, StoresGivenBytes, Env* (the simulator is validated against the model).",
         "Trusted: TLC, harness/env/spinnaker_sim.py as environment (cross-checked by EnvReadReturnsMemory / EnvFinalMemory / EnvBlockBase), the struct table parsed independently from sark.struct.",
         "DESIGN.md §6 C07"),
 "C08": ("TLA+ specs BitField (scopes, co-presence, layout predicates) + BitFieldDesign (permissive post-condition vs first-fit algorithm; as-coded and cross-scope variants refuted) + BitFieldTrace validating full observable tables of real BitField histories + job R: definition histories chosen by TLC's simulator (BitFieldSim) replayed call by call on real BitFields and judged by BitFieldReplayTrace (accepted/refused as predicted, layout among the allowed layouts)",
         "Design: NoOverlap / WideEnough / Refines / success guarantee at length 4; the scan range as rig coded it violates SuccessFirstFit (fixed in repo); cross-scope first-fit fragmentation refuted (known finding). Conformance: exhaustive small-scope and random histories; clauses NoOverlap, WideEnough, ReadBack, MaskIsUnion, TagsClosed, KeysDistinct, RejectsBadExplicit, MustSucceed*.",
         "Trusted: TLC, table extraction in harness/props/c08.py. Bit fields up to 32 bits. Two known findings are listed in known_findings.json.",
         "DESIGN.md §6 C08"),
 "C09": ("TLA+ specs LoadApp (flood-fill packets, receiver rules; extends Regions) + LoadAppDesign (client retry loop x per-chip receivers, packet by packet; count-mode and overwrite variants refuted) + LoadAppTrace validating real load_application runs against the simulated machine + job R: scenarios and miss schedules chosen by TLC's simulator (LoadAppSim) replayed through the real loader and judged by LoadAppReplayTrace (outcome, attempts, cores addressed, state after each attempt as the design predicts); hosts, beyond the property, Lifecycle / LifecycleDesign / LifecycleTrace (the application life cycle from probe to stop next to a foreign application)",
         "Design: every assignment / miss pattern / n_tries / mode at 2 chips x 2 cores (0.1-3 M states, incl. termination). Conformance: exhaustive miss schedules at small scope + random; 30+ clauses incl. StartAnnouncesBlocks, BlocksConsecutive, ImageReassembles, SelectsExactTargets, RetriesOnlyMissing, ReturnedMeansAllLoaded, RaisedNamesExactlyMissing, SimulatorCommitMatchesModel.",
         "Trusted: TLC, simulator as environment (validated by Simulator* clauses). Assumptions: whole-word binaries < 256 blocks; use_count only without foreign waiting cores (its documented precondition, refuted otherwise in the design job); reloading over a waiting core is outside the domain.",
         "DESIGN.md §6 C09"),
 "C13": ("TLA+ specs FileView (fixed-length file semantics, confinement) + FileViewDesign (root + slices, all short histories) + FileViewTrace validating real MemoryIO / SlicedMemoryIO histories over a recording controller, plus replay of TLC-simulated behaviours into the real objects",
         "Design: 0.14-2 M states, Confined / Nested / ReadsLastWritten / PositionAdvances / SliceNamesExactly ... Conformance: all sequences of <= 3 operations at small scope, random histories, and behaviours generated by tlc -simulate replayed into rig; every controller access is judged.",
         "Trusted: TLC, recording controller. One known finding (seek from the end) listed in known_findings.json with a key naming the exact relation observed.",
         "DESIGN.md §6 C13"),
 "C17": ("TLA+ specs History (ProbeClauses over digests) + HistoryDesign (library with memo / mutable default; six faulty variants refuted) + HistoryTrace validating call histories executed in fresh interpreters",
         "Design: HistoryIndependent and MechanismImpliesIndependence for the fault-free library, each injected fault violates exactly its clause. Conformance: histories of 3-8 real library calls per child process with deep before/after digests of every argument, of all 23 mutable default arguments and of the ring memo; the probe call is re-run first in a fresh interpreter (FreshAgrees).",
         "Trusted: TLC, the canonical digest encoding (round-trip self-tested), PYTHONHASHSEED=0. TLA+ is used here as a uniform clause evaluator over digests; the model is small by nature (DESIGN.md §7).",
         "DESIGN.md §6 C17"),
 "C18": ("TLA+ specs Context (Resolved / Lacking; extends Spinn5 for the connection choice) + ContextDesign (stack discipline, application blocks; pop-first variant refuted) + ContextTrace validating every datagram of every decorated MachineController / BMPController method under nested contexts + job R: programs chosen by TLC's simulator over the real method signatures (ContextSim) replayed on the real controllers and judged by ContextReplayTrace (MatchesPrediction)",
         "Design: 0.17-0.76 M states: MergedAgrees, MechanismAgrees, ExitRestores, StopsOwnApp. Conformance: 42 + 7 methods found by introspection, arguments passed positionally / by keyword / from nested contexts / by default, exits by exception, discovered connections; clauses ResolvedX/Y/P/AppId, RequiredRejectedBeforeSend, NothingSentOnReject, ExitRestores, ApplicationExitStops, RightConnection.",
         "Trusted: TLC, the datagram decoder of the fake machine in harness/props/c18.py. Five known findings (context core leaking into internal reads of five methods) are listed in known_findings.json.",
         "DESIGN.md §6 C18"),
 "C06": ("TLA+ specs Scp / ScpDesign (client loop + network + clock; safety invariants, NoEarlyRetransmit, termination under fairness; the no-lifetime variant refuted) + ScpTrace validating every datagram / callback / exception of the real send_scp_burst on a virtual-time lossy network, incl. schedules taken from tlc -simulate behaviours; ScpWindow / ScpWindowInd (Apalache: an inductive invariant of the windowed client for unbounded window, tries, sequence space and clock against a network that may present any sequence number; five wrong clients refuted)",
         "Design: 0.26 M states quick (3 commands, window 1-2, tries 1-2, 4 sequence numbers, 2 bursts) + a wrap configuration; 2.9 M thorough; liveness checked. Conformance: exhaustive schedule trees at small scope (alphabet lost / ok / at-deadline / late / dup / busy / fatal), TLC-simulated schedules, random connections with 1-3 bursts: WindowBound, SeqNotOutstanding, NoEarlyRetransmit, TriesBound, AtMostOnce, RightReply, ExactlyOnce, ReturnedComplete, TimeoutHonest, FatalRaises, Terminates.",
         "Trusted: TLC, harness/env/net.py (environment and recorder). Assumption: a reply is not delivered after its sequence number was re-issued by the protocol's own allocation rule (reference allocator in the environment; the design job shows the wrong-callback interleaving without it). Time is virtual in 0.25 s ticks.",
         "DESIGN.md §6 C06"),
 "C14": ("TLA+ specs Probe (wire layouts of info / P2P / sver / status / IOBUF / counters; model chips, links, reservation rule) + ProbeDesign (encode/decode round trips, reservation procedure; TLC exhaustive) + ProbeTrace validating get_system_info / get_machine / build_machine / build_core_constraints / status readers against generated machine states on the simulated machine; hosts, beyond the property, Scripts/ScriptsDesign/ScriptsTrace (the seven command-line tools run in-process against planted machine states)",
         "Design: 0.13-0.94 M states: InfoRoundTrip, P2PRoundTrip across the 8-per-word boundary, ResvRuleSound / ResvProcedureIsRule for every busy-core pattern on <= 3 chips x 4 cores. Conformance: 271 machine states quick / 2.5 k thorough incl. sparse 255-wide address spaces, unresponsive chips, both version encodings, IOBUF chains; 30+ clauses incl. ChipsExactlyResponding, MachineLinksTrue, ReservationsCoverExactlyNonIdleCores, ReservationsDisjoint and Env* clauses validating the simulator's replies against the documented layouts.",
         "Trusted: TLC, harness/env/probesim.py as environment (validated by Env* clauses). build_application_map is anchored code but not part of the statement and is not judged.",
         "DESIGN.md §6 C14"),
 "C10": ("TLA+ specs RouterLoad (TablesOf / MultiSource; staging record layout; router install rule) + RouterLoadDesign (trees built hop by hop -> tables; router alloc / load / clear machine; TLC exhaustive) + RouterLoadTrace validating routing_tree_to_tables and load_routing_table_entries / get_routing_table_entries against the simulated machine",
         "Design: 54 k + 112 k + 67 k states (router machine; table generation in tree order and in any order). Conformance: tables from the real router and hand-shaped trees (shared key/mask, equal / different / subset forks, route-less leaves) judged as sets per chip (TablesExact, MultisourcePrecisely); loads of 0..1023 entries, all 24 route bits, arbitrary keys/masks, free-list states incl. full: StagingRecordsExact, LoadCommandMatches, InstalledExactlyGiven, AllocFailureRaisesAndInstallsNothing, ReadBackSame, EnvInstallMatchesStaging.",
         "Trusted: TLC, harness/proj.py tree flattening, simulator as environment (validated by Env clauses).",
         "DESIGN.md §6 C10"),
}
NOT_YET = "check not built yet in this round (planned in DESIGN.md §6); not claimed until its spec and conformance harness exist"

def main():
    checks = []
    for pid in ALL:
        if pid not in CLAIMED:
            continue
        tech, text, note, ref = CLAIMED[pid]
        checks.append(dict(
            property_id=pid,
            quick_cmd="./check %s --tier quick" % pid,
            thorough_cmd="./check %s --tier thorough" % pid,
            evidence_file="/verif/evidence/%s.json" % pid,
            replay_cmd_template="./check %s --replay {path}" % pid,
            engine="tlc-trace",
            level_claimed=dict(category="model_checking", text=text, design_ref=ref),
            level_note=note,
            technique=tech))
    m = dict(
        version=1,
        setup_cmd="./check selftest --fast",
        hooks=dict(guard="RIG_VERIF", enable="environment variable RIG_VERIF=1 (set by ./check); no hook is currently compiled into rig",
                   baseline_off_cmd="/verif/tools/baseline.sh", source_commits=[], add_only=True),
        engines=[dict(name="tlc-trace", path="/verif/check", serves_properties=sorted(CLAIMED),
                      kind_free_text="explicit TLA+ specifications in /verif/spec checked by TLC: design jobs (exhaustive at small constants), trace validation of recorded rig executions, replay of TLC-generated behaviours into rig")],
        checks=checks,
        notes="See DESIGN.md. known_findings.json lists findings/fixed entries.",
        not_applicable=[dict(property_id=p, reason=NOT_YET) for p in ALL if p not in CLAIMED],
    )
    with open(os.path.join(HERE, "MANIFEST.json"), "w") as f:
        json.dump(m, f, indent=1)

main()
