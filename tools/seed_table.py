#!/usr/bin/env python3
"""tools/seed_table.py   regenerate the table of DESIGN.md §11 from seeded/*/meta.json (in place)."""
import glob, json, re
rows = []
for p in sorted(glob.glob("/verif/seeded/*/meta.json")):
    m = json.load(open(p))
    det = m["detected_by_quick_check"]
    late = re.search(r"missed|the miss|first run|only after| - after |\(after |^after ", m["detection"], re.I)
    first = "missed at first" if late else det
    caught = re.split(r"\s+-\s+|\s+\((?=after|first|only)", m["detection"])[0].strip() if late else m["detection"]
    rows.append((m["property"], m.get("round", 1), m["name"], m["needs_to_manifest"], first, caught))
rows.sort(key=lambda r: (r[0], r[2]))
tab = ["| property | round | change | needs, to manifest | detected | by clause(s) |", "|---|---|---|---|---|---|"]
tab += ["| %s | %s | %s | %s | %s | %s |" % tuple(str(c).replace("|", "/") for c in r) for r in rows]
s = open("/verif/DESIGN.md").read()
a = s.index("| property | round | change |")
b = s.index("\n\n", a)
open("/verif/DESIGN.md", "w").write(s[:a] + "\n".join(tab) + s[b:])
by = {}
for r in rows:
    k = by.setdefault(r[1], [0, 0]); k[0] += 1; k[1] += r[4] == "missed at first"
print(len(rows), "seeds;", {k: "%d kept, %d missed at first" % tuple(v) for k, v in sorted(by.items())})
