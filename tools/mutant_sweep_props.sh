#!/bin/sh
# tools/mutant_sweep_props.sh <parallelism> <Cnn>...   as mutant_sweep.sh, for the kept seeds of the named properties only
P=$1; shift
for p in "$@"; do ls -d /verif/seeded/$p-*/; done | xargs -P $P -I{} sh -c '
  d={}; p=$(basename $d | cut -d- -f1)
  out=$(MUTANT_LINES=60 /verif/tools/try_mutant.sh $d/patch.diff $p 2>&1)
  if echo "$out" | grep -q "^VIOLATION property=$p"; then echo "detected $(basename $d)";
  else echo "MISSED   $(basename $d) :: $(echo "$out" | tail -2 | tr "\n" " " | cut -c1-200)"; fi'
