#!/usr/bin/env python3
"""Print the prompt given to a sub-agent that writes PROPERTY-PRESERVING changes for property <id>: realistic
refactorings / optimisations / behaviour changes of the anchored code under which the property still holds.  The
checks must stay quiet on them (a VIOLATION would be a false alarm).  Only the property text is given, nothing
from /verif."""
import json, sys
pid = sys.argv[1]
wt = "/tmp/wtb-%s" % pid.lower()
out = "/tmp/benign-out/%s" % pid
for line in open('/verif/properties.jsonl'):
    p = json.loads(line)
    if p['id'] == pid:
        break
print(f"""You are helping to evaluate a verification tool for false alarms. You have your own scratch git worktree of the Python library mundya/rig (a toolkit for SpiNNaker machines) at {wt} . Work ONLY inside {wt} and {out}/ ; never touch /repo or /verif and do not read anything under /verif.

Here is a semantic property that the library satisfies and must keep satisfying:

TITLE: {p['title']}
STATEMENT: {p['statement']}
QUANTIFIED OVER: {p['quantifier']['text']}
CODE IT IS ANCHORED IN: {', '.join(p['anchors']['files'])}

Your task: produce THREE different, independent, realistic code changes to the anchored code (and the helpers it calls) such that with each change
  (a) the property above STILL HOLDS for every input in its stated domain (argue this carefully in notes.md),
  (b) the library still imports and passes its existing test suite exactly as well as the unchanged code does, and
  (c) the change is NOT a no-op: it changes internal structure and/or observable behaviour in a way the property
      leaves free. Aim for changes that a naive or over-fitted checker might wrongly flag. Examples of the kind wanted:
      - a different but equally legal choice where the property allows several outcomes (another tie-break, another
        iteration order, another but still valid placement / first-fit position / chunk size / retry timing / order
        of independent commands, a shortest path of the same length through different chips, an equivalent but
        differently ordered or differently merged table, more or fewer retransmissions within the documented limit);
      - an internal refactoring: private attributes / helper functions renamed, removed, inlined or given a different
        signature; a cache added or removed (correctly invalidated); a data structure replaced (list -> deque,
        dict -> OrderedDict, recursion -> loop); work done eagerly instead of lazily or the reverse;
      - an optimisation that sends fewer / larger / differently aligned commands or datagrams, or computes the same
        result another way; a different but documented exception message; extra validation that rejects only
        inputs OUTSIDE the property's stated domain;
      - behaviour outside the property's quantifier changed (inputs the statement excludes).
    Make the three changes different in kind (e.g. one legal-choice change, one structural refactoring, one
    optimisation or out-of-domain behaviour change). Public function names and signatures that the property's text
    mentions must keep working; everything private may change.

How to run the existing tests (use exactly this; python is /venv/bin/python, there is no network):
  cd {wt} && /venv/bin/python -m pytest -q -p no:cacheprovider --timeout=900 --continue-on-collection-errors 2>&1 | grep -E "^(FAILED|ERROR)|passed|failed"
On the UNCHANGED worktree this gives 11 or 12 failed / ~1320 passed plus 1 collection error (these pre-existing failures are caused by the modern Python/numpy versions and are expected). Record that set first; with your change applied the set of FAILED/ERROR tests must be identical (no new failures; if an existing test pins the exact choice you wanted to change, choose a different change). Always run python from inside {wt} so that `import rig` picks up the worktree copy (check `rig.__file__`).

For each change, write into {out}/<short-name>/ :
  patch.diff   - `git diff` of the change relative to the worktree's HEAD (must apply with `git apply` to a clean checkout)
  demo.py      - a small standalone program, run as `cd <checkout> && /venv/bin/python /path/to/demo.py`, that
                 (1) shows the change is not a no-op: prints "CHANGED" if it observes the new behaviour/structure and
                     "UNCHANGED" otherwise (e.g. a different legal result for some input, a private name gone, a
                     different number of datagrams), and
                 (2) checks the PROPERTY itself, as stated, on a good number of varied inputs (a few hundred random
                     ones where cheap) and exits 0 if it holds on all of them, 1 otherwise. It must exit 0 both with
                     and without the change.
  notes.md     - what was changed, why the property still holds for every input of its domain, and the test-suite
                 summary with and without the change.
After preparing each change, reset the worktree (`git -C {wt} checkout -- .`) before starting the next, and leave the worktree clean at the end. Never use `git stash`. If demo.py needs a machine, fake it in-process by substituting the module attributes socket / select / time of rig.machine_control.scp_connection (and time of machine_controller / boot) - never open a real socket. In your final message list the directories and a one-line summary of each.""")
