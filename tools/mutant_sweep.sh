#!/bin/sh
# tools/mutant_sweep.sh [parallelism]   run the quick check of its property against every kept seeded change;
# prints one line per seed, "MISSED" for any that the check no longer detects.  (Evidence files are restored by
# try_mutant.sh; run the real checks afterwards if two runs of one property overlapped.)
P=${1:-4}
ls -d /verif/seeded/C*/ | xargs -P $P -I{} sh -c '
  d={}; p=$(basename $d | cut -d- -f1)
  out=$(MUTANT_LINES=60 /verif/tools/try_mutant.sh $d/patch.diff $p 2>&1)
  if echo "$out" | grep -q "^VIOLATION property=$p"; then echo "detected $(basename $d)";
  else echo "MISSED   $(basename $d) :: $(echo "$out" | tail -2 | tr "\n" " " | cut -c1-200)"; fi'
