#!/bin/sh
# tools/try_mutant.sh <patch.diff> <Cnn> [tier]
# Apply a patch to a scratch worktree of /repo (so /repo itself, and any background run using it, is not
# disturbed), run the check against it through RIG_ROOT, remove the worktree.
# (Equivalent, as the brief describes it: git -C /repo apply <patch>; ./check Cnn; git -C /repo checkout -- .)
set -u
patch=$(readlink -f "$1"); prop=$2; tier=${3:-quick}
wt=/tmp/wt-mutant-$$
git -C /repo worktree add --detach $wt HEAD >/dev/null 2>&1 || { echo "cannot create worktree"; exit 3; }
git -C $wt apply "$patch" || { echo "patch does not apply"; git -C /repo worktree remove --force $wt; exit 3; }
cp /verif/evidence/"$prop".json /tmp/rigverif-evidence-$$.json 2>/dev/null
RIG_ROOT=$wt VERIF_WALL_LIMIT=${VERIF_WALL_LIMIT:-900} timeout 2400 /verif/check "$prop" --tier "$tier" > /tmp/rigverif-mutant-$$.out 2>&1
rc=$?
git -C /repo worktree remove --force $wt
grep -E "VIOLATION|KNOWN-FINDING|MACHINERY|OK|FAIL|EXTRA|clauses \[" /tmp/rigverif-mutant-$$.out | cut -c1-260 | head -${MUTANT_LINES:-8}
rm -f /tmp/rigverif-mutant-$$.out
# evidence written by a mutant run is not evidence of the real tree
cp /tmp/rigverif-evidence-$$.json /verif/evidence/"$prop".json 2>/dev/null; rm -f /tmp/rigverif-evidence-$$.json
echo "exit=$rc"
exit $rc
