#!/bin/sh
# tools/try_mutant.sh <patch.diff> <Cnn> [tier]  -- apply a patch to /repo, run the check, undo the patch.
set -u
patch=$(readlink -f "$1"); prop=$2; tier=${3:-quick}
git -C /repo diff --quiet || { echo "/repo is dirty"; exit 3; }
git -C /repo apply "$patch" || { echo "patch does not apply"; exit 3; }
VERIF_WALL_LIMIT=${VERIF_WALL_LIMIT:-900} timeout 2400 /verif/check "$prop" --tier "$tier" > /tmp/rigverif-mutant.out 2>&1
rc=$?
git -C /repo checkout -- .
grep -E "VIOLATION|KNOWN-FINDING|MACHINERY|OK|FAIL" /tmp/rigverif-mutant.out | head -8
rm -f /tmp/rigverif-mutant.out
# evidence written by a mutant run is not evidence of the real tree
git -C /verif checkout -- evidence/"$prop".json 2>/dev/null
echo "exit=$rc"
exit $rc
