#!/usr/bin/env python3
"""Print the prompt given to a seeding sub-agent for property <id> (only the property text, no /verif content)."""
import json, sys
pid = sys.argv[1]
wt = "/tmp/wt-%s" % pid.lower()
for line in open('/verif/properties.jsonl'):
    p = json.loads(line)
    if p['id'] == pid:
        break
print(f"""You are helping to evaluate a verification tool. You have your own scratch git worktree of the Python library mundya/rig (a toolkit for SpiNNaker machines) at {wt} . Work ONLY inside {wt} and /tmp/seed-out/{pid}/ ; never touch /repo or /verif and do not read anything under /verif.

Here is a semantic property that the library is supposed to satisfy:

TITLE: {p['title']}
STATEMENT: {p['statement']}
QUANTIFIED OVER: {p['quantifier']['text']}
CODE IT IS ANCHORED IN: {', '.join(p['anchors']['files'])}

Your task: produce TWO different, independent, realistic code changes to the library (each a small edit such as a plausible bug a developer could introduce while refactoring or optimising: an off-by-one, a wrong comparison, a missing case, a stale variable, a boundary condition, two sites that each look fine alone...) such that each change
  (a) BREAKS the property above,
  (b) still imports/compiles, and
  (c) still passes the library's existing test suite exactly as well as the unchanged code does.
Prefer changes that need something specific to manifest (an unusual input, a particular size or boundary, a multi-step sequence of operations, a particular fault or interleaving, a rare tie-break) rather than ones that ordinary use would expose at once. Do NOT special-case on magic constants in a way no developer ever would (no `if x == 12345`); the change must look like a plausible mistake.

How to run the existing tests (use exactly this; python is /venv/bin/python, there is no network):
  cd {wt} && /venv/bin/python -m pytest -q -p no:cacheprovider --timeout=900 --continue-on-collection-errors -x -q 2>&1 | tail -5        (quick look)
  cd {wt} && /venv/bin/python -m pytest -q -p no:cacheprovider --timeout=900 --continue-on-collection-errors 2>&1 | grep -E "^(FAILED|ERROR)|passed|failed"
On the UNCHANGED worktree this gives 12 failed / ~1320 passed plus 1 collection error (these pre-existing failures are caused by the modern Python/numpy versions and are expected). Record that set first; with your change applied the set of FAILED/ERROR tests must be identical (no new failures). Always run python from inside {wt} so that `import rig` picks up the worktree copy (check `rig.__file__`).

For each of the two changes, write into /tmp/seed-out/{pid}/<short-name>/ :
  patch.diff   - `git diff` of the change relative to the worktree's HEAD (must apply with `git apply` to a clean checkout)
  demo.py      - a small standalone program, run as `cd <checkout> && /venv/bin/python /path/to/demo.py`, that exits with status 1 (printing what went wrong) when the change is applied and exits 0 on the unchanged code. It must demonstrate the violation of the PROPERTY (as stated above), not just a difference in behaviour.
  notes.md     - which sentence of the property it breaks, what specific input / sequence / fault it needs to manifest, and the exact test command output summary with and without the change.
After preparing each change, reset the worktree (`git -C {wt} checkout -- .`) before starting the next, and leave the worktree clean at the end. Verify yourself that demo.py exits 0 on the clean worktree and 1 with the patch applied, and that the test suite result is unchanged. In your final message list the two directories and a one-line summary of each.""")
