#!/usr/bin/env python3
"""Round-2 seeding prompt: as seed_prompt.py, plus the one-line summaries of changes already made by others
(so that the new ones differ), plus the no-stash rule."""
import json, sys, glob, subprocess
pid = sys.argv[1]
base = subprocess.check_output(["python3", "/verif/tools/seed_prompt.py", pid]).decode()
import os
OUT = os.environ.get("SEED_OUT", "/tmp/seed-out6")
base = base.replace("/tmp/seed-out/%s/" % pid, "%s/%s/" % (OUT, pid))
base = base.replace("12 failed / ~1320 passed plus 1 collection error", "11 or 12 failed / ~1320 passed plus 1 collection error")
prev = []
for m in sorted(glob.glob("/verif/seeded/%s-*/meta.json" % pid)):
    d = json.load(open(m))
    prev.append("- %s: needs %s" % (d["name"], d["needs_to_manifest"]))
extra = """

ADDITIONAL RULES FOR THIS ROUND
* Other people have already produced the following changes for this property; yours must be DIFFERENT in kind and in
  the code they touch (a different function, a different sentence of the property, a different trigger):
%s
* Aim for subtle ones: two cooperating sites that each look fine alone, a multi-step sequence of operations, a
  particular fault / interleaving / history, a rare boundary - not something ordinary use exposes at once.
* Prefer code paths none of the changes above touches: helper functions and modules that the anchored code calls,
  argument shapes and optional parameters the existing tests never use, behaviour that depends on what was called
  before (caches, shared mutable objects, generators left unfinished), and sizes at the far end of the stated domain.
* Never use `git stash` (the stash is shared between worktrees); switch between clean and patched code only with
  `git apply <patch>` / `git -C <worktree> checkout -- .`.
* If demo.py needs a machine, fake it in-process by substituting the module attributes socket / select / time of
  rig.machine_control.scp_connection (and time of machine_controller / boot) - never open a real socket.
""" % "\n".join(prev)
print(base + extra)
