#!/usr/bin/env python3
"""tools/keep_seed.py <seed-dir> <Cnn> <detected:yes|no|partial> "<what it needs>" "<which check/clauses catch it>"
Copies patch.diff, demo.py, notes.md into /verif/seeded/<Cnn>-<name>/ and writes meta.json."""
import json, os, shutil, sys, subprocess
src, pid, det, needs, caught = sys.argv[1:6]
name = os.path.basename(os.path.normpath(src))
dst = "/verif/seeded/%s-%s" % (pid, name)
os.makedirs(dst, exist_ok=True)
for f in ("patch.diff", "demo.py", "notes.md"):
    if os.path.exists(os.path.join(src, f)):
        shutil.copy(os.path.join(src, f), dst)
head = subprocess.check_output(["git", "-C", "/repo", "rev-parse", "--short", "HEAD"]).decode().strip()
json.dump(dict(property=pid, name=name, breaks=pid, needs_to_manifest=needs,
               origin="independent sub-agent given only the property text and a scratch worktree",
               confirmed=dict(repo_head=head, cmd="tools/verify_seed.sh <dir>",
                              result="demo exits 0 on the clean tree and 1 with the patch; FAILED/ERROR set of the test suite identical"),
               detected_by_quick_check=det, detection=caught,
               how_to_rerun="tools/try_mutant.sh seeded/%s-%s/patch.diff %s" % (pid, name, pid)),
          open(os.path.join(dst, "meta.json"), "w"), indent=1)
print(dst)
