#!/venv/bin/python
"""tools/run_beyond.py <module> [host-pid] [tier]   run harness.props.<module>.run_beyond on its own (no evidence
is written; for trying a hosted model before / after hooking it).  Also: <module> selftest."""
import os, sys, time, json
sys.path.insert(0, "/verif")
os.environ.setdefault("PYTHONHASHSEED", "0")
from harness.core import Check, import_rig
import importlib
name = sys.argv[1]
pid = sys.argv[2] if len(sys.argv) > 2 else "C00"
tier = sys.argv[3] if len(sys.argv) > 3 else "quick"
import_rig()
mod = importlib.import_module("harness.props." + name)
chk = Check(pid, tier, int(os.environ.get("VERIF_SEED", "0")))
t0 = time.time()
if pid == "selftest":
    print(mod.selftest(chk))
else:
    r = mod.run_beyond(chk)
    print("rejected:", len(r or []))
    print(json.dumps(chk.extra.get("beyond_the_property", {}), indent=1)[:3000])
    print("states", chk.states, "jobs", len(chk.jobs), "violations", len(chk.violations))
print("wall %.1fs" % (time.time() - t0))
import shutil; shutil.rmtree(chk.tmp, ignore_errors=True)
